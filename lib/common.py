"""Shared machinery of the /verif checks: building the tie (go2coq, Coq, harness, extracted
model), running implementation and model on the same cases, evidence, verdict lines."""
import fcntl, hashlib, json, os, random, re, subprocess, sys, time, glob

VERIF = os.path.dirname(os.path.dirname(os.path.abspath(__file__)))
REPO = os.environ.get("VERIF_REPO", "/repo")
BUILD = os.path.join(VERIF, "build")
COQ = os.path.join(VERIF, "coq")
GOENV = dict(os.environ, GOFLAGS="-mod=mod", GOPROXY="off", GOSUMDB="off", GOTOOLCHAIN="local",
             CGO_ENABLED=os.environ.get("CGO_ENABLED", "0"))

TRUSTED_BASE = [
    "Coq 8.16.1 kernel (coqc) including the vm_compute machine; native_compute not used",
    "tools/go2coq (tie A): Go->Coq translator for the scanner step functions and tables",
    "Coq extraction (ExtrOcamlBasic only, no Extract Constant/Inductive of our own) + ocaml/driver.ml",
    "Go harness built from /repo with -tags verif (read-only snapshot hooks)",
    "oracle contracts for jsight-schema-core (DESIGN.md section 4)",
]


class BrokenTie(Exception):
    def __init__(self, what, detail=""):
        super().__init__(what)
        self.what, self.detail = what, detail


def run(cmd, cwd=None, env=None, timeout=None, input=None, check=False):
    p = subprocess.run(cmd, cwd=cwd, env=env, timeout=timeout, input=input,
                       stdout=subprocess.PIPE, stderr=subprocess.STDOUT, text=True)
    if check and p.returncode != 0:
        raise BrokenTie("command failed: " + " ".join(cmd), p.stdout[-4000:])
    return p


_lock = None


def lock():
    global _lock
    os.makedirs(BUILD, exist_ok=True)
    _lock = open(os.path.join(VERIF, ".lock"), "w")
    fcntl.flock(_lock, fcntl.LOCK_EX)


def tree_hash():
    h = hashlib.sha256()
    for root, dirs, files in os.walk(REPO):
        dirs[:] = sorted(d for d in dirs if d not in (".git", "testdata", "docs", "img"))
        for f in sorted(files):
            if f.endswith(".go") or f in ("go.mod", "go.sum"):
                p = os.path.join(root, f)
                h.update(p.encode())
                with open(p, "rb") as fh:
                    h.update(fh.read())
    return h.hexdigest()


def build_go2coq():
    src = os.path.join(VERIF, "tools", "go2coq")
    p = run(["go", "build", "-o", os.path.join(BUILD, "go2coq"), "."], cwd=src, env=GOENV, timeout=600)
    if p.returncode != 0:
        raise BrokenTie("go2coq does not build", p.stdout)


def regenerate():
    """tie A: regenerate coq/Gen from /repo's working tree."""
    build_go2coq()
    p = run([os.path.join(BUILD, "go2coq"), REPO, os.path.join(COQ, "Gen")], env=GOENV, timeout=900)
    if p.returncode != 0:
        raise BrokenTie("go2coq cannot translate the current source (tie A)", p.stdout[-4000:])


def coq_makefile():
    mk = os.path.join(COQ, "Makefile")
    cp = os.path.join(COQ, "_CoqProject")
    if not os.path.exists(mk) or os.path.getmtime(mk) < os.path.getmtime(cp):
        run(["coq_makefile", "-f", "_CoqProject", "-o", "Makefile"], cwd=COQ, check=True)


def coq_make(targets, timeout=3000):
    """Full .vo build of the given targets (never -vos). Returns (ok, log)."""
    coq_makefile()
    p = run(["make", "-j16"] + targets, cwd=COQ, timeout=timeout)
    return p.returncode == 0, p.stdout


def build_model():
    """Extract the executable model and build the OCaml driver."""
    ok, log = coq_make(["Model/ScanRun.vo", "Model/Entry.vo", "Model/Lazy.vo", "Model/OpenApi.vo"] if os.path.exists(os.path.join(COQ, "Model/Entry.v")) else ["Model/ScanRun.vo"])
    if not ok:
        raise BrokenTie("the executable model does not compile against the regenerated program", log[-4000:])
    gen = os.path.join(VERIF, "ocaml", "gen")
    os.makedirs(gen, exist_ok=True)
    p = run(["coqc", "-Q", COQ, "JS", os.path.join(COQ, "Extract.v")], cwd=gen, timeout=900)
    if p.returncode != 0:
        raise BrokenTie("extraction failed", p.stdout[-4000:])
    p = run(["ocamlfind", "ocamlopt", "-O2", "-w", "-a", "-I", "gen", "gen/model.mli", "gen/model.ml",
             "driver.ml", "-o", os.path.join(BUILD, "model")], cwd=os.path.join(VERIF, "ocaml"), timeout=900)
    if p.returncode != 0:
        raise BrokenTie("OCaml build of the extracted model failed", p.stdout[-4000:])


def build_harness(race=False):
    hd = os.path.join(VERIF, "harness")
    with open(os.path.join(REPO, "go.sum")) as f:
        s = f.read()
    with open(os.path.join(hd, "go.sum"), "w") as f:
        f.write(s)
    # the replace directive always points at the tree under test
    gm = open(os.path.join(hd, "go.mod")).read()
    gm2 = re.sub(r"(replace github.com/jsightapi/jsight-api-core => ).*", r"\g<1>" + REPO, gm)
    if gm2 != gm:
        open(os.path.join(hd, "go.mod"), "w").write(gm2)
    out = os.path.join(BUILD, "harness-race" if race else "harness")
    env = dict(GOENV)
    cmd = ["go", "build", "-tags", "verif"]
    if race:
        cmd.append("-race")
        env["CGO_ENABLED"] = "1"
    p = run(cmd + ["-o", out, "."], cwd=hd, env=env, timeout=1200)
    if p.returncode != 0:
        raise BrokenTie("the harness does not build against the current source (hooks / API changed?)", p.stdout[-4000:])
    return out


def run_lines(binary, args, lines, timeout=1200, shards=8):
    """Run `binary args` over input lines split into shards in parallel; returns output lines."""
    if not lines:
        return []
    n = max(1, min(shards, len(lines) // 50 + 1))
    chunks = [lines[i::n] for i in range(n)]
    procs = []
    for ch in chunks:
        p = subprocess.Popen([binary] + args, stdin=subprocess.PIPE, stdout=subprocess.PIPE,
                             stderr=subprocess.PIPE, text=True)
        procs.append((p, ch))
    outs = []
    import threading
    results = [None] * len(procs)

    def work(i, p, ch):
        try:
            o, e = p.communicate("\n".join(ch) + "\n", timeout=timeout)
        except subprocess.TimeoutExpired:
            p.kill()
            o, e = p.communicate()
            e += "\nTIMEOUT"
        results[i] = (o, e, p.returncode)

    ths = [threading.Thread(target=work, args=(i, p, ch)) for i, (p, ch) in enumerate(procs)]
    for t in ths:
        t.start()
    for t in ths:
        t.join()
    for (o, e, rc) in results:
        if rc != 0:
            raise BrokenTie("%s %s exited with %s" % (binary, " ".join(args), rc), (e or "")[-3000:])
        outs.extend(l for l in o.split("\n") if l)
    return outs


def corpus_files():
    fs = sorted(glob.glob(os.path.join(REPO, "testdata", "**", "*.jst"), recursive=True))
    return fs


def seed():
    try:
        return int(os.environ.get("VERIF_SEED", "1"))
    except ValueError:
        return 1


def write_evidence(pid, tier, level, coverage, assumptions, wall, violations):
    os.makedirs(os.path.join(VERIF, "evidence"), exist_ok=True)
    ev = {"property_id": pid, "tier": tier, "seed": seed(), "level": level, "coverage": coverage,
          "assumptions": assumptions, "wall_s": round(wall, 2), "violations": violations}
    with open(os.path.join(VERIF, "evidence", pid + ".json"), "w") as f:
        json.dump(ev, f, indent=1, sort_keys=True)


def replay_path(pid, tag):
    d = os.path.join(VERIF, "replays")
    os.makedirs(d, exist_ok=True)
    return os.path.join(d, "%s-%s.json" % (pid, tag))


def known_findings(pid):
    p = os.path.join(VERIF, "known_findings.json")
    if not os.path.exists(p):
        return []
    return [f for f in json.load(open(p)).get("open", []) if pid in f["properties"]]
