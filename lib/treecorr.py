"""Directive-layer correspondence: core.JApiCore (scanProject, collectMacro, checkMacroForRecursion,
processPaste, collectRules) against the extracted Coq model (Model/Core.v, Model/Expand.v) on
multi-file projects: directive forests as written and after PASTE expansion, errors with
location and include trace, panics, macro table, registered enums."""
import json, os, re, random, subprocess, itertools
from common import *
import scancorr

# ---------------------------------------------------------------------------- running

def parse_strace(path):
    """accesses between the harness's begin/end markers -> {case id: [(kind, relative path)]}"""
    import re as _re
    out, cur, root = {}, None, None
    rx = _re.compile(r'^\d+\s+(\w+)\((?:AT_FDCWD|\d+),?\s*"((?:[^"\\]|\\.)*)"(.*)$')
    try:
        fh = open(path, errors="replace")
    except OSError:
        return out
    for line in fh:
        m = rx.match(line)
        if not m:
            continue
        call, p, rest = m.group(1), m.group(2), m.group(3)
        if p.startswith("/verif-mark-begin-"):
            body = p[len("/verif-mark-begin-"):]
            cid, _, rhex = body.rpartition("-")
            cur, root = cid, bytes.fromhex(rhex).decode()
            out[cur] = []
            continue
        if p.startswith("/verif-mark-end-"):
            cur = None
            continue
        if cur is None:
            continue
        try:
            p = p.encode("latin1").decode("unicode_escape").encode("latin1").decode("utf-8", "replace")
        except Exception:
            pass
        kind = "read" if call in ("openat", "open") else "stat"
        rel = os.path.relpath(p, root) if p.startswith("/") else p
        out[cur].append((kind, rel))
    fh.close()
    return out


def run_isolated(binary, args, lines, timeout=600, shards=12, strace_dir=None, min_shard=20):
    """Like run_lines, but a worker that dies (fatal stack overflow, OOM, hang) is attributed to
    the case it was running, which gets a synthetic result; the rest of the shard is re-run."""
    if not lines:
        return {}, {}
    n = max(1, min(shards, len(lines) // min_shard + 1))
    pending = [lines[i::n] for i in range(n)]
    results, crashes = {}, {}
    import threading
    lock_ = threading.Lock()

    def work(chunk):
        todo = list(chunk)
        while todo:
            cmd = [binary] + args
            env = None
            if strace_dir is not None:
                import tempfile
                fd, logp = tempfile.mkstemp(prefix="st", suffix=".log", dir=strace_dir)
                os.close(fd)
                cmd = ["strace", "-f", "-e", "trace=openat,open,newfstatat,statx,stat,lstat,access,readlink,readlinkat",
                       "-o", logp] + cmd
                env = dict(os.environ, VERIF_MARKERS="1")
            p = subprocess.Popen(cmd, stdin=subprocess.PIPE, stdout=subprocess.PIPE,
                                 stderr=subprocess.PIPE, text=True, env=env)
            try:
                o, e = p.communicate("\n".join(todo) + "\n", timeout=timeout)
                hung = False
            except subprocess.TimeoutExpired:
                p.kill()
                o, e = p.communicate()
                hung = True
            started, done = None, set()
            for l in o.split("\n"):
                if l.startswith("#START "):
                    started = l[7:].strip()
                elif l.startswith("{"):
                    try:
                        r = json.loads(l)
                    except ValueError:
                        continue
                    with lock_:
                        results[r["id"]] = r
                    done.add(r["id"])
            if p.returncode == 0 and not hung:
                return
            # attribute the death to the in-flight case
            ids = [json.loads(t)["id"] for t in todo]
            if started is not None and started not in done:
                why = "hang" if hung else ("stack-overflow" if "stack overflow" in (e or "") or "goroutine stack exceeds" in (e or "") else "killed")
                with lock_:
                    crashes[started] = why + ": " + (e or "")[:300]
                k = ids.index(started)
                todo = todo[k + 1:]
            else:
                raise BrokenTie("harness died outside any case", (e or "")[-2000:])

    ths = [threading.Thread(target=work, args=(ch,)) for ch in pending]
    for t in ths:
        t.start()
    for t in ths:
        t.join()
    return results, crashes


def hexs(s):
    return s.encode("latin1").hex() if isinstance(s, str) else bytes(s).hex()


def unhex(h):
    return bytes.fromhex(h)


def model_line(case, gout):
    """input line for `model tree` from the case and the oracle tables the harness recorded"""
    toks = [case["id"]]
    names = [case["root"]] + sorted(n for n in case["files"] if n != case["root"])
    for n in names:
        toks.append("F:%s:%s" % (hexs(n), case["files"][n]))
    dirs = set(case.get("dirs", [])) | {".", ".."}
    for n in list(case["files"]) + ["../" + o for o in (case.get("outer") or {})]:
        while "/" in n:
            n = n.rsplit("/", 1)[0]
            dirs.add(n)
    for d in sorted(dirs):
        toks.append("D:%s" % hexs(d))
    for n, h in (case.get("outer") or {}).items():
        toks.append("F:%s:%s" % (hexs("../" + n), h))
    toks.append("R:%s" % hexs(case["root"]))
    msgs = []
    for fo in gout.get("oracle") or []:
        for e in fo["entries"]:
            if "panic" in e:
                continue
            if "len" in e:
                toks.append("O:%s:%s:%d:L:%d" % (fo["name"], e["k"], e["pos"], e["len"]))
            else:
                msgs.append(e.get("msg", ""))
                toks.append("O:%s:%s:%d:E:%d:%d" % (fo["name"], e["k"], e["pos"], len(msgs) - 1, e["idx"]))
        for e in fo["enums"]:
            if not e["ok"]:
                msgs.append(e.get("msg", ""))
                toks.append("X:%s:%d:%d:%d:%d" % (fo["name"], e["begin"], e["end"], len(msgs) - 1, e["idx"]))
    return " ".join(toks), msgs


# ---------------------------------------------------------------------------- messages

def go_quote(b):
    """strconv.Quote for byte strings; None when the exact form is outside this routine"""
    out = ['"']
    try:
        s = b.decode("utf-8")
    except UnicodeDecodeError:
        return None
    for ch in s:
        o = ord(ch)
        if ch == '"':
            out.append('\\"')
        elif ch == "\\":
            out.append("\\\\")
        elif ch == "\n":
            out.append("\\n")
        elif ch == "\t":
            out.append("\\t")
        elif ch == "\r":
            out.append("\\r")
        elif 0x20 <= o < 0x7f:
            out.append(ch)
        else:
            return None
    out.append('"')
    return "".join(out)


def render_msg(fmt, args, suffix, oracle_msgs):
    """-> (text, exact). Go's fmt with %s / %q over byte-string arguments."""
    if fmt in ("UCHAR", "UEOF"):
        w, e = args[0].decode("latin1"), args[1].decode("latin1")
        tail = w if e == "" else w + ", expecting " + e
        return (("UEOF:" if fmt == "UEOF" else "UCHAR:") + tail, True)
    if fmt == "ORACLE":
        mid = args[0][0] if args and args[0] else -1
        # message ids are passed as a one-byte list by the model only for small ids
        return (None, False)
    exact = True
    out = []
    i = 0
    ai = 0
    while i < len(fmt):
        if fmt[i] == "%" and i + 1 < len(fmt) and fmt[i + 1] in "sq":
            a = args[ai] if ai < len(args) else b""
            ai += 1
            if fmt[i + 1] == "s":
                out.append(a.decode("utf-8", "replace"))
            else:
                q = go_quote(a)
                if q is None:
                    exact = False
                    out.append("\x00")
                else:
                    out.append(q)
            i += 2
        else:
            out.append(fmt[i])
            i += 1
    for name, line in suffix:
        out.append("\n%s:%d" % (name.decode("utf-8", "replace"), line))
    return ("".join(out), exact)


def canon_scanner_msg(msg):
    m = scancorr.RUNE_RE.match(msg)
    if m:
        return "UCHAR:" + m.group(1)
    if msg.startswith("invalid end of file "):
        return "UEOF:" + msg[len("invalid end of file "):]
    return None


def err_matches(gerr, merr, oracle_msgs):
    """compare an implementation error (harness JSON) with a model error (driver JSON)"""
    gmsg = unhex(gerr["msg"]).decode("utf-8", "replace")
    fmt = unhex(merr["fmt"]).decode("latin1")
    args = [unhex(a) for a in merr["args"]]
    suffix = [(unhex(n), l) for n, l in merr["suffix"]]
    loc_ok = (gerr["file"] == merr["file"] and gerr["index"] == merr["index"] and gerr["line"] == merr["line"]
              and gerr["col"] == merr["col"])
    gtrace = [(t[0], int(t[1])) for t in gerr["trace"]]
    mtrace = [(t[0], int(t[1])) for t in merr["trace"]]
    if not loc_ok:
        return "location: impl %s:%d (line %d col %d) model %s:%d (line %d col %d)" % (
            unhex(gerr["file"]).decode(), gerr["index"], gerr["line"], gerr["col"],
            unhex(merr["file"]).decode(), merr["index"], merr["line"], merr["col"])
    if gtrace != mtrace:
        return "include trace: impl %s model %s" % (gtrace, mtrace)
    if "quote" in merr:
        if merr["quote"] is None:
            return "quote: the model predicts a crash while quoting, the implementation returned %r" % unhex(gerr["quote"])
        if merr["quote"] != gerr["quote"]:
            return "quote: impl %r model %r" % (unhex(gerr["quote"]), unhex(merr["quote"]))
    if fmt == "ORACLE":
        mid = int.from_bytes(bytes(args[0]), "big") if args and args[0] else -1
        want = oracle_msgs[mid] if 0 <= mid < len(oracle_msgs) else None
        if want is not None and want != gmsg:
            return "message: impl %r model(oracle) %r" % (gmsg, want)
        return None
    text, exact = render_msg(fmt, args, suffix, oracle_msgs)
    if fmt in ("UCHAR", "UEOF"):
        if canon_scanner_msg(gmsg) != text:
            return "message: impl %r model %r" % (gmsg, text)
        return None
    if exact:
        if gmsg != text:
            return "message: impl %r model %r" % (gmsg, text)
    else:
        parts = text.split("\x00")
        rx = ".*".join(re.escape(p) for p in parts)
        if not re.fullmatch(rx, gmsg, re.S):
            return "message: impl %r model~ %r" % (gmsg, text)
    return None


PANIC_CLASSES = [
    ("nil-current-directive", "nil pointer dereference"),
    ("empty-include-name", "index out of range [0] with length 0"),
    ("lexeme-value", "slice bounds out of range"),
    ("scanner:", "empty stack"),
]


def panic_matches(gp, mp):
    for mname, gtext in PANIC_CLASSES:
        if mp.startswith(mname):
            return gtext in gp
    return False


def compare(case, g, crash, m, oracle_msgs):
    """-> None or a description of the first difference"""
    if crash is not None:
        if m.get("scan") == "fuel" or m.get("p2") == "fuel":
            return None
        return "implementation process died (%s); model: scan=%s p2=%s" % (crash[:80], m.get("scan"), m.get("p2"))
    if g["scan"] != m["scan"]:
        return "scan verdict: impl %s%s model %s%s" % (g["scan"], " (" + g.get("panic", "")[:80] + ")" if g["scan"] == "panic" else "",
                                                     m["scan"], " (" + m.get("panic", "") + ")" if m["scan"] == "panic" else "")
    if g["scan"] == "err":
        return err_matches(g["err"], m["err"], oracle_msgs)
    if g["scan"] == "panic":
        return None if panic_matches(g.get("panic", ""), m.get("panic", "")) else "panic site: impl %r model %r" % (g.get("panic"), m.get("panic"))
    if g["dirs"] != m["dirs"]:
        return "directive forest (as written) differs"
    if g.get("p2") != m.get("p2"):
        return "macro phase verdict: impl %s model %s" % (g.get("p2"), m.get("p2"))
    if g.get("p2") == "err":
        whys = [err_matches(g["err2"], e, oracle_msgs) for e in m["errs"]]
        if all(w is not None for w in whys):
            return "macro phase error: " + whys[0]
        return None
    if g.get("p2") == "panic":
        return None if panic_matches(g.get("panic", ""), m.get("panic", "")) else "panic site (macro phase): impl %r model %r" % (g.get("panic"), m.get("panic"))
    if g["roots"] != m["roots"]:
        return "root list after collectMacro differs"
    if sorted(g["macros"]) != sorted(m["macros"]):
        return "macro table differs"
    if g["expanded"] != m["expanded"]:
        return "expanded forest differs"
    if g["enums"] != m["enums"]:
        return "registered enums differ"
    return None


def run_tree(cases, shards=12, strace_dir=None):
    """cases: list of dicts {id, files{name: hex}, dirs[], root}. -> (impl results, crashes, model results, mismatches)"""
    lines = [json.dumps(c) for c in cases]
    gres, crashes = run_isolated(os.path.join(BUILD, "harness"), ["tree"], lines, shards=shards, strace_dir=strace_dir)
    mlines, msgs = [], {}
    for c in cases:
        g = gres.get(c["id"], {})
        if c["id"] in crashes and not g:
            # the process died: the oracle tables are gone too; recompute them in a fresh process
            g = {}
        ml, ms = model_line(c, g)
        mlines.append(ml)
        msgs[c["id"]] = ms
    mout = run_lines(os.path.join(BUILD, "model"), ["tree"], mlines, shards=shards)
    mres = {}
    for l in mout:
        r = json.loads(l)
        mres[r["id"]] = r
    mism = []
    for c in cases:
        cid = c["id"]
        g, m = gres.get(cid), mres.get(cid)
        if m is None:
            mism.append({"id": cid, "what": "model produced no output", "case": c})
            continue
        if g is None and cid not in crashes:
            mism.append({"id": cid, "what": "harness produced no output", "case": c})
            continue
        why = compare(c, g, crashes.get(cid), m, msgs[cid])
        if why:
            mism.append({"id": cid, "what": why, "case": c, "impl": g, "model": m})
    return gres, crashes, mres, mism


# ---------------------------------------------------------------------------- generators

RENDER = {
    "JSIGHT": ["JSIGHT 0.3"], "INFO": ["INFO"], "Title": ['Title "T"'], "Version": ["Version 1"],
    "Description": ["Description\n  some text"], "SERVER": ["SERVER @s"], "BaseUrl": ['BaseUrl "http://x"'],
    "URL": ["URL /a", "URL /b/{id}"], "GET": ["GET", "GET /g"], "POST": ["POST", "POST /p"],
    "PUT": ["PUT", "PUT /u"], "PATCH": ["PATCH"], "DELETE": ["DELETE /d"],
    "Body": ["Body any", "Body\n{}"], "Request": ["Request any", "Request\n{}", "Request"],
    "200": ["200 any", "200", "404 @t"], "Path": ['Path\n{"id": 1}'], "Headers": ['Headers\n{"h": "v"}'],
    "Query": ['Query\n{"q": 1}'], "TYPE": ["TYPE @t any", "TYPE @u\n{}"], "ENUM": ["ENUM @e\n[1, 2]"],
    "MACRO": ["MACRO @m"], "PASTE": ["PASTE @m", "PASTE @n"], "Protocol": ["Protocol json-rpc-2.0"],
    "Method": ["Method foo"], "Params": ["Params\n{}"], "Result": ["Result\n{}"], "TAG": ["TAG @tg"],
    "Tags": ["Tags @tg"], "OperationId": ["OperationId op1"],
}
KIND_LIST = list(RENDER.keys())


def render_tokens(tokens, indent=False):
    """tokens: list of (text, explicit) or ')' ; one directive per line, '(' on its own line right
    after the keyword line, bodies after it."""
    out = []
    for t in tokens:
        if t == ")":
            out.append(")")
            continue
        text, explicit = t
        first, _, rest = text.partition("\n")
        out.append(first)
        if explicit:
            out.append("(")
        if rest:
            out.append(rest)
    return ("\n".join(out) + "\n").encode()


def gen_token_docs(rng, n, maxlen=8, macro_bias=False):
    docs = []
    for i in range(n):
        toks = []
        ln = rng.randint(1, maxlen)
        kinds = KIND_LIST
        for _ in range(ln):
            if rng.random() < 0.12:
                toks.append(")")
                continue
            k = rng.choice(kinds)
            if macro_bias and rng.random() < 0.3:
                k = rng.choice(["MACRO", "PASTE", "URL", "GET", "200", "ENUM"])
            toks.append((rng.choice(RENDER[k]), rng.random() < 0.25))
        docs.append(toks)
    return docs


def exhaustive_pairs():
    """all sequences of two directives over every kind x rendering x explicit flag, with optional ')'"""
    items = [(r, x) for k in KIND_LIST for r in RENDER[k] for x in (False, True)]
    for a in items:
        for b in items:
            yield [a, b]
            if a[1]:
                yield [a, ")", b]


def chain_docs():
    """every kind P placed at the end of a valid chain of ancestors from the root (per the
    reference table of lib/ctxref.py), explicit or implicit, followed by every kind as a child:
    the table entry (P, child) is exercised at depth, not only directly under the root"""
    import ctxref
    k2r = lambda k: "200" if k == "RESP" else k
    chain = {k: [k] for k in ctxref.ROOT}
    todo = list(ctxref.ROOT)
    while todo:
        q = todo.pop(0)
        for c in ctxref.TABLE.get(q, []):
            if c not in chain:
                chain[c] = chain[q] + [c]
                todo.append(c)
    for p, ch in chain.items():
        if p == "JSIGHT":
            continue
        for anc_x in (False, True):
            for p_x in (False, True):
                head = [(RENDER[k2r(a)][0], anc_x) for a in ch[:-1]] + [(RENDER[k2r(p)][0], p_x)]
                for k in KIND_LIST:
                    for r in RENDER[k]:
                        yield head + [(r, False)]


def stale_sibling_docs():
    """P at the end of a valid ancestor chain; below it an IMPLICIT child A with an implicit
    grandchild B (both silently closed by what follows), then an EXPLICIT sibling C of A, closed
    by ')', then every kind X: X may only land in P or further up, never in the closed A or B.
    Both context passes (while scanning, and again while PASTEs are expanded) must agree on that."""
    import ctxref
    k2r = lambda k: "200" if k == "RESP" else k
    chain = {k: [k] for k in ctxref.ROOT}
    todo = list(ctxref.ROOT)
    while todo:
        q = todo.pop(0)
        for c in ctxref.TABLE.get(q, []):
            if c not in chain:
                chain[c] = chain[q] + [c]
                todo.append(c)
    skip = ("JSIGHT", "MACRO", "PASTE")
    for p, ch in chain.items():
        if p in skip:
            continue
        kids = [a for a in ctxref.TABLE.get(p, []) if a not in skip]
        for a in kids:
            for b in [x for x in ctxref.TABLE.get(a, []) if x not in skip][:3]:
                for c in kids[:4]:
                    inner = [x for x in ctxref.TABLE.get(c, []) if x not in skip][:1]
                    head = [(RENDER[k2r(q)][0], False) for q in ch[:-1]] + [(RENDER[k2r(p)][0], False)]
                    head += [(RENDER[k2r(a)][0], False), (RENDER[k2r(b)][0], False), (RENDER[k2r(c)][0], True)]
                    head += [(RENDER[k2r(i)][0], False) for i in inner] + [")"]
                    for k in KIND_LIST:
                        if k not in skip:
                            yield head + [(RENDER[k][0], False)]


def single_file_case(cid, data):
    return {"id": cid, "files": {"root.jst": data.hex()}, "dirs": [], "root": "root.jst"}


# ---------------------------------------------------------------------------- structured documents

class Node:
    def __init__(self, text, children=None, explicit=False):
        self.text, self.children, self.explicit = text, children or [], explicit


def flatten_nodes(nodes):
    toks = []
    for n in nodes:
        toks.append((n.text, n.explicit))
        toks.extend(flatten_nodes(n.children))
        if n.explicit:
            toks.append(")")
    return toks


def gen_response(rng, code=None):
    code = code or rng.choice(["200", "201", "400", "404", "500"])
    r = rng.random()
    if r < 0.3:
        return Node(code + " any")
    if r < 0.5:
        return Node(code + " @t")
    if r < 0.7:
        return Node(code + '\n{"a": 1}')
    kids = []
    if rng.random() < 0.6:
        kids.append(Node('Headers\n{"h": "v"}'))
    kids.append(Node(rng.choice(["Body any", 'Body\n{"b": 2}', "Body @t", "Body regex\n/ab/"])))
    return Node(code, kids)


def gen_method(rng, with_path, used_paths):
    m = rng.choice(["GET", "POST", "PUT", "PATCH", "DELETE"])
    text = m
    if with_path:
        p = "/m%d" % len(used_paths)
        if rng.random() < 0.3:
            p += "/{id}"
        used_paths.append(p)
        text += " " + p
    if rng.random() < 0.3:
        text += " // note %d" % rng.randint(0, 9)
    kids = []
    if rng.random() < 0.3:
        kids.append(Node("Description\n  method text"))
    if rng.random() < 0.2:
        kids.append(Node("OperationId op%d" % rng.randint(0, 10 ** 6)))
    if rng.random() < 0.3:
        kids.append(Node("Tags @tg"))
    if rng.random() < 0.3:
        kids.append(Node('Query "q=1"\n{"q": 1}'))
    if m != "GET" and rng.random() < 0.5:
        rq = rng.random()
        if rq < 0.4:
            kids.append(Node('Request\n{"r": 1}'))
        elif rq < 0.6:
            kids.append(Node("Request @t"))
        else:
            kids.append(Node("Request", [Node('Headers\n{"h": "v"}'), Node('Body\n{"b": 1}')]))
    codes = rng.sample(["200", "201", "400", "404", "500"], rng.randint(1, 3))
    for c in codes:
        kids.append(gen_response(rng, c))
    rng.shuffle(kids)
    return Node(text, kids)


def gen_structured(rng, with_macros=True):
    """a random document that follows the context table; returns list of root Nodes"""
    roots = [Node("JSIGHT 0.3")]
    if rng.random() < 0.6:
        kids = [Node('Title "API %d"' % rng.randint(0, 99))]
        if rng.random() < 0.5:
            kids.append(Node("Version 1.%d" % rng.randint(0, 9)))
        if rng.random() < 0.4:
            kids.append(Node(rng.choice(["Description\n  about the api", "Description\n(\n  about the api\n)", "Description\n(\n  about the api\n\n)",
                                         "Description\n(\n  about\n\n  the api\n)"])))
        roots.append(Node("INFO", kids))
    for i in range(rng.randint(0, 2)):
        roots.append(Node("SERVER @s%d // server %d" % (i, i), [Node('BaseUrl "https://h%d/"' % i)]))
    blocks = []
    blocks.append(Node("TAG @tg // tag", [Node("Description\n  tag text")] if rng.random() < 0.4 else []))
    blocks.append(Node('TYPE @t\n{"x": 1}'))
    if rng.random() < 0.5:
        blocks.append(Node("TYPE @u\n@t"))
    if rng.random() < 0.5:
        blocks.append(Node("ENUM @e\n[1, 2]"))
        # further enums and types under names in no particular (alphabetical) order: the sections of the
        # catalog list them in the order of the document
        if rng.random() < 0.4:
            for nm in rng.sample(["@zeta", "@alpha", "@mid", "@Beta", "@a9"], rng.randint(1, 3)):
                blocks.append(Node("ENUM %s // enum %s\n[\"%s\", 2]" % (nm, nm[1:], nm[1:])))
        if rng.random() < 0.3:
            for nm in rng.sample(["@ztype", "@atype", "@mtype"], rng.randint(1, 2)):
                blocks.append(Node("TYPE %s\n{\"k\": 1}" % nm))
    used = []
    for i in range(rng.randint(1, 3)):
        r = rng.random()
        if r < 0.5:
            kids = []
            if rng.random() < 0.3:
                kids.append(Node('Path\n{"id": 1}'))
                upath = "/u%d/{id}" % i
            else:
                upath = "/u%d" % i
            if rng.random() < 0.3:
                kids.append(Node("Tags @tg"))
            for _ in range(rng.randint(1, 3)):
                kids.append(gen_method(rng, False, used))
            # methods under one URL must differ
            seen, uniq = set(), []
            for k in kids:
                key = k.text.split()[0]
                if key in seen:
                    continue
                seen.add(key)
                uniq.append(k)
            blocks.append(Node("URL " + upath, uniq))
        elif r < 0.85:
            blocks.append(gen_method(rng, True, used))
        else:
            kids = [Node("Protocol json-rpc-2.0")]
            for j in range(rng.randint(1, 2)):
                mk = []
                if rng.random() < 0.5:
                    mk.append(Node("Description\n  rpc text"))
                if rng.random() < 0.7:
                    mk.append(Node('Params\n{"p": 1}'))
                if rng.random() < 0.7:
                    mk.append(Node('Result\n{"r": 1}'))
                rng.shuffle(mk)     # the children of a Method have no prescribed order
                kids.append(Node("Method m%d_%d" % (i, j), mk))
            blocks.append(Node("URL /rpc%d" % i, kids))
    rng.shuffle(blocks)
    roots += blocks
    # explicit contexts on random containers
    def sprinkle(nodes):
        for n in nodes:
            if n.children and rng.random() < 0.2:
                n.explicit = True
            sprinkle(n.children)
    sprinkle(roots[1:])
    if with_macros and rng.random() < 0.6:
        roots = abstract_macros(rng, roots)
    return roots


def abstract_macros(rng, roots):
    """move runs of sibling directives into MACROs (explicit body) and PASTE them"""
    macros = []
    counter = [0]

    def visit(nodes, depth, parent=""):
        out = []
        i = 0
        while i < len(nodes):
            n = nodes[i]
            at_root = depth == 0 and n.text.split()[0] in ("GET", "POST", "PUT", "PATCH", "DELETE", "URL")
            if (depth > 0 or at_root) and parent not in ("TAG", "Method") and rng.random() < 0.25 and n.text.split()[0] not in ("Protocol", "Method", "Params", "Result", "Tags", "OperationId"):
                ln = 1 if at_root else rng.randint(1, min(2, len(nodes) - i))
                run = nodes[i:i + ln]
                if all(r.text.split()[0] not in ("Protocol", "Method", "Params", "Result", "Tags", "OperationId", "TAG", "JSIGHT", "MACRO") for r in run):
                    name = "@mc%d" % counter[0]
                    counter[0] += 1
                    for r in run:
                        r.children = visit(r.children, depth + 1, r.text.split()[0])
                    macros.append(Node("MACRO " + name, run, explicit=True))
                    out.append(Node("PASTE " + name))
                    i += ln
                    continue
            n.children = visit(n.children, depth + 1, n.text.split()[0])
            out.append(n)
            i += 1
        return out

    body = visit(roots[1:], 0)
    pos = rng.randint(0, len(body))
    return [roots[0]] + body[:pos] + macros + body[pos:]


def perturb_tokens(rng, toks):
    """small structural mutations of a valid token list (the malformed stream)"""
    toks = list(toks)
    r = rng.random()
    if not toks:
        return toks
    i = rng.randrange(len(toks))
    if r < 0.2:
        del toks[i]
    elif r < 0.4:
        toks.insert(i, ")")
    elif r < 0.6 and toks[i] != ")":
        toks[i] = (toks[i][0], not toks[i][1])
    elif r < 0.8:
        k = rng.choice(KIND_LIST)
        toks.insert(i, (rng.choice(RENDER[k]), rng.random() < 0.2))
    else:
        j = rng.randrange(len(toks))
        toks[i], toks[j] = toks[j], toks[i]
    return toks


def split_includes(rng, toks, max_files=4):
    """cut a token list at directive boundaries into an include tree: returns files {name: bytes}"""
    files = {}
    counter = [0]

    def build(ts, depth, prefix):
        if depth >= 3 or len(ts) < 2 or counter[0] >= max_files:
            return render_tokens(ts) if ts else b""
        out = []
        i = 0
        while i < len(ts):
            if rng.random() < 0.25 and counter[0] < max_files and i > 0:
                ln = rng.randint(1, min(4, len(ts) - i))
                counter[0] += 1
                sub = rng.choice(["", "", "sub/"])
                name = "%sinc%d.jst" % (sub, counter[0])
                body = build(ts[i:i + ln], depth + 1, prefix + sub)
                if rng.random() < 0.3:
                    body = rng.choice([b"\n", b"\n\n", b"   \n"]) + body + rng.choice([b"", b"\n\n"])
                files[prefix + name] = body
                out.append(b"INCLUDE " + (b'"' + name.encode() + b'"' if rng.random() < 0.3 else name.encode()) + b"\n")
                i += ln
            else:
                out.append(render_tokens([ts[i]]))
                i += 1
        return b"".join(out)

    files["root.jst"] = build(toks, 0, "")
    return files


def project_case(cid, files, dirs=()):
    return {"id": cid, "files": {n: d.hex() for n, d in files.items()}, "dirs": list(dirs), "root": "root.jst"}


def placed_check(mres, cases, out):
    """hypothesis of C01_catalog_builder_never_reaches_an_impossible_state, on every forest the
    model hands to its catalog builder: nested as the context table prescribes"""
    byid = {c["id"]: c for c in cases}
    n = 0
    for cid, m in mres.items():
        if m.get("p2") != "ok":
            continue
        if m.get("placed") is True:
            n += 1
        elif m.get("placed") == "macro-not-on-top" and cid in byid:
            out.broken.append({"what": "a scanned forest has a MACRO below the top level (hypothesis of C01_expanded_forest_is_well_nested)",
                               "detail": {k: bytes.fromhex(h).decode("latin1")[:600] for k, h in byid[cid]["files"].items()}})
        elif m.get("placed") is False and cid in byid:
            out.broken.append({"what": "an expanded forest that reaches the catalog builder is not nested as the context table prescribes (hypothesis of the totality theorem of Props/C01.v)",
                               "detail": {k: bytes.fromhex(h).decode("latin1")[:600] for k, h in byid[cid]["files"].items()}})
    out.coverage["expanded_forests_well_nested"] = out.coverage.get("expanded_forests_well_nested", 0) + n
    return n
