"""Scanner correspondence: run scanner.Scanner (Go, -tags verif) and the extracted Coq model
on the same byte strings and compare lexemes, the way the scan ended, and the configuration
after every Next() (step function, step stack, queued events, event stack, parameters, cursor)."""
import json, os, re, random
from common import *

KEYWORDS = ["JSIGHT", "INFO", "Title", "Version", "Description", "SERVER", "BaseUrl", "URL", "GET",
            "POST", "PUT", "PATCH", "DELETE", "Body", "Request", "Path", "Headers", "Query", "TYPE",
            "ENUM", "MACRO", "PASTE", "INCLUDE", "Protocol", "Method", "Params", "Result", "TAG",
            "Tags", "OperationId"]

RUNE_RE = re.compile(r"^invalid character '(?:\\.[^']*|[^'\\])' (.*)$", re.S)


def canon_go_end(o):
    """-> (kind, idx, text)"""
    if o["end"] == "ok":
        return ("ok", 0, "")
    if o["end"] == "panic":
        m = o.get("msg", "")
        if "empty stack" in m:
            c = "stack-empty"
        elif "slice bounds" in m:
            c = "value-slice"
        elif "index out of range" in m:
            c = "index-range"
        elif "Empty set of found" in m:
            c = "finds-empty"
        else:
            c = "other:" + m
        return ("panic", 0, c)
    if o["end"] == "hang":
        return ("hang", 0, "")
    msg = o.get("msg", "")
    m = RUNE_RE.match(msg)
    if m:
        return ("errU", o["idx"], "0:" + m.group(1))
    if msg.startswith("invalid end of file "):
        return ("errU", o["idx"], "1:" + msg[len("invalid end of file "):])
    return ("err", o["idx"], msg)


def canon_model_end(s, oracle):
    if s == "ok":
        return ("ok", 0, "")
    if s == "fuel":
        return ("hang", 0, "")
    if s.startswith("panic:"):
        c = s[6:]
        if c in ("step-stack-empty", "event-stack-empty"):
            c = "stack-empty"
        return ("panic", 0, c)
    kind, idx, rest = s.split(":", 2)
    if kind == "errU":
        eof, we = rest.split(":", 1)
        w, e = we.split("|", 1)
        return ("errU", int(idx), eof + ":" + (w if e == "" else w + ", expecting " + e))
    if kind == "errB":
        return ("err", int(idx), rest)
    if kind == "errO":
        mid = int(rest)
        if mid < len(oracle):
            return ("err", int(idx), oracle[mid].get("msg", "?"))
        return ("err", int(idx), "<oracle answer missing>")
    return ("?", 0, s)


def oracle_fields(oracle):
    out = []
    for i, e in enumerate(oracle):
        if "panic" in e:
            continue
        if "len" in e:
            out.append("%s:%d:L:%d" % (e["k"], e["pos"], e["len"]))
        else:
            out.append("%s:%d:E:%d:%d" % (e["k"], e["pos"], i, e["idx"]))
    return out


def run_scan(cases, traj=True, shards=12):
    """cases: list of (id, bytes). Returns (results, mismatches); results: id -> dict."""
    lines = ["%s %s" % (cid, data.hex()) for cid, data in cases]
    gout = run_lines(os.path.join(BUILD, "harness"), ["scan"] + ([] if traj else ["-notraj"]), lines, shards=shards)
    go = {}
    for l in gout:
        o = json.loads(l)
        go[o["id"]] = o
    mlines = []
    for cid, data in cases:
        o = go.get(cid)
        if o is None:
            raise BrokenTie("harness produced no output for case " + cid)
        mlines.append(" ".join([cid, data.hex() if data else ""] + oracle_fields(o["oracle"])).rstrip())
    mout = run_lines(os.path.join(BUILD, "model"), ["scan"], mlines, shards=shards)
    model = {}
    for l in mout:
        f = l.split("\t")
        while len(f) < 4:
            f.append("")
        model[f[0]] = f
    mismatches = []
    results = {}
    for cid, data in cases:
        o, m = go[cid], model.get(cid)
        if m is None:
            mismatches.append({"id": cid, "data": data.hex(), "what": "model produced no output"})
            continue
        oracle_panic = [e for e in o["oracle"] if "panic" in e]
        glex = o["lex"]
        mlex = [x for x in m[1].split(",") if x]
        gend = canon_go_end(o)
        mend = canon_model_end(m[2], o["oracle"])
        gtr = o["traj"]
        mtr = [x for x in m[3].split(";") if x]
        results[cid] = {"lex": glex, "end": gend, "go": o}
        if oracle_panic:
            results[cid]["oracle_contract_violated"] = True
            continue
        # the contract of the InFile theorems (Props/C12.v): no recorded schema length reaches
        # beyond the end of the file
        results[cid]["oracle_answers"] = sum(1 for e in o["oracle"] if "len" in e)
        over = [e for e in o["oracle"] if "len" in e and e["len"] > 0 and e["pos"] + e["len"] > len(data)]
        if over:
            results[cid]["oracle_past_eof"] = over[0]
        diff = None
        if glex != mlex:
            diff = "lexemes"
        elif gend != mend:
            diff = "end"
        elif traj:
            extra = 1 if gend[0] in ("errU", "err", "panic") else 0
            if gtr[:len(mtr)] != mtr or len(gtr) != len(mtr) + extra:
                diff = "trajectory"
        if diff:
            mismatches.append({"id": cid, "data": data.hex(), "what": diff,
                               "impl": {"lex": glex, "end": list(gend), "traj": gtr},
                               "model": {"lex": mlex, "end": list(mend), "traj": mtr}})
    return results, mismatches


def run_scan_impl_only(cases, shards=12):
    """when the model cannot be built: implementation observables only (for the search)"""
    lines = ["%s %s" % (cid, data.hex()) for cid, data in cases]
    gout = run_lines(os.path.join(BUILD, "harness"), ["scan", "-notraj"], lines, shards=shards)
    results = {}
    for l in gout:
        o = json.loads(l)
        results[o["id"]] = {"lex": o["lex"], "end": canon_go_end(o), "go": o}
    return results, []


# ------------------------------------------------------------------------------ generators

ALPHA = b" \t\n\r#/*()\"\\{}[]@:,.-_01259abzAZGETPUTRLYinfo"


def gen_random_bytes(rng, n, maxlen=40):
    out = []
    for i in range(n):
        l = rng.randint(0, maxlen)
        mode = rng.random()
        if mode < 0.2:
            b = bytes(rng.randrange(1, 256) for _ in range(l))
        else:
            b = bytes(rng.choice(ALPHA) for _ in range(l))
        out.append(("rb%d" % i, b))
    return out


PARAMS = [b"/a", b"/a/{id}", b"@t", b"\"@t\"", b"any", b"empty", b"regex", b"jsight", b"[@t]", b"\"q q\"",
          b"\"a\\\"b\"", b"\"a\\\\\"", b"0.3", b"htmlFormEncoded", b"json-rpc-2.0", b"x", b"\"\"", b"/", b"@", b"\"any\""]
BODIES = [b"{}", b"{\"a\": 1}", b"[1,2]", b"@t", b"\"s\"", b"12", b"{\n  \"a\": 1 // n\n}", b"/ab+c/", b"/a\\/b/",
          b"[\n 1,\n 2\n]", b"{} // c", b"true", b"null", b"@t | @u", b"{", b"[", b"/", b"//", b"{}x"]
TRIVIA = [b"", b" ", b"\t", b"\n", b"\r\n", b"\r", b"# c\n", b"### b\n###\n", b"  ", b"\n\n", b" # x\n", b"###x###"]
ANNOT = [b"", b" // note", b" /* note */", b" //", b" /**/", b" /* a\n b */", b" /*/", b" // a # b", b" /"]


def gen_docs(rng, n):
    out = []
    kws = KEYWORDS + ["200", "404", "599", "100"]
    for i in range(n):
        parts = []
        for _ in range(rng.randint(1, 6)):
            parts.append(rng.choice(TRIVIA))
            r = rng.random()
            if r < 0.08:
                parts.append(rng.choice([b"(", b")", b"(\n", b")\n", b" ( ", b")#c\n"]))
                continue
            kw = rng.choice(kws).encode()
            if rng.random() < 0.05:
                kw = kw[:rng.randint(0, len(kw))] + bytes([rng.choice(ALPHA)])
            parts.append(kw)
            for _ in range(rng.choice([0, 0, 1, 1, 2, 3])):
                parts.append(rng.choice([b" ", b"  ", b"\t"]))
                parts.append(rng.choice(PARAMS))
            parts.append(rng.choice(ANNOT))
            if rng.random() < 0.15:
                parts.append(rng.choice([b" (", b"\n(", b"\n  (\n"]))
            parts.append(rng.choice([b"\n", b"\r\n", b"\r", b" \n", b"", b"\n  ", b"\n\n"]))
            if rng.random() < 0.6:
                parts.append(rng.choice(BODIES))
                parts.append(rng.choice([b"\n", b"\r\n", b" \n", b"", b" # c\n", b"\n)\n", b")"]))
        out.append(("doc%d" % i, b"".join(parts)))
    return out


def gen_mutations(rng, files, n):
    out = []
    if not files:
        return out
    for i in range(n):
        p = rng.choice(files)
        d = bytearray(open(p, "rb").read())
        if len(d) > 3000:
            s = rng.randrange(0, len(d) - 3000)
            d = d[s:s + 3000]
        for _ in range(rng.randint(1, 3)):
            if not d:
                break
            pos = rng.randrange(0, len(d))
            r = rng.random()
            if r < 0.3:
                del d[pos:pos + rng.randint(1, 4)]
            elif r < 0.6:
                d[pos:pos] = bytes(rng.choice(ALPHA) for _ in range(rng.randint(1, 3)))
            elif r < 0.8:
                d[pos] = rng.choice(ALPHA)
            else:
                d = d[:pos]
        out.append(("mut%d" % i, bytes(d)))
    return out


def gen_keywords_near(rng, n_random=0):
    """every keyword/response-code prefix x one-byte continuations, near misses, terminators"""
    out = []
    terms = [b" ", b"\t", b"\n", b"\r", b"", b"#", b"/", b"x", b"(", b"\"", b"1", b"\x01", b"\xff"]
    words = [k.encode() for k in KEYWORDS] + [b"100", b"200", b"599", b"600", b"099", b"1000", b"20", b"5", b"2x0"]
    i = 0
    for w in words:
        for t in terms:
            out.append(("kw%d" % i, w + t + b" x"))
            i += 1
        for cut in range(0, len(w) + 1):
            for c in (0x01, 0x20, 0x0a, 0x23, 0x2f, 0x30, 0x39, 0x41, 0x5a, 0x61, 0x7a, 0x7f, 0x80, 0xff):
                out.append(("kw%d" % i, w[:cut] + bytes([c]) + w[cut + 1:] + b" "))
                i += 1
        out.append(("kw%d" % i, w.lower() + b" "))
        i += 1
        out.append(("kw%d" % i, w.upper() + b" "))
        i += 1
        out.append(("kw%d" % i, w))
        i += 1
    for _ in range(n_random):
        w = rng.choice(words)
        cut = rng.randint(0, len(w))
        out.append(("kw%d" % i, w[:cut] + bytes([rng.randrange(1, 256)]) + rng.choice(terms)))
        i += 1
    return out


def corpus_cases(limit=None, rng=None):
    fs = corpus_files()
    if limit is not None and rng is not None and len(fs) > limit:
        fs = rng.sample(fs, limit)
    return [("corp%d" % i, open(p, "rb").read()) for i, p in enumerate(fs)]
