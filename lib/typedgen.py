"""Documents with a rich user-type dependency graph (C15/C06/C16/C17/C18): object types that
refer to each other (forward, backward, cyclic through optional properties), allOf chains,
or-rules, enum rules, type shortcuts, arrays, regex/any/empty notations, path variables with
types, JSON-RPC params/results — every reference is valid, so the document is accepted
whatever the order of its top-level blocks."""
import random
from treecorr import Node as N


def with_comma(p, last):
    """JSight puts the comma before the inline annotation"""
    if last:
        return p
    if p.endswith("]") and "\n" in p:
        return p + ","
    if " // " in p:
        a, b = p.split(" // ", 1)
        return a + ", // " + b
    return p + ","


def gen_types(rng, nt=None, ne=None, exotic=True):
    nt = rng.randint(2, 6) if nt is None else nt
    ne = rng.randint(0, 2) if ne is None else ne
    enums = ["@e%d" % i for i in range(ne)]
    names = ["@t%d" % i for i in range(nt)]
    hidden = list(range(nt))
    rng.shuffle(hidden)          # allOf may only point "down" this hidden order: no allOf cycles
    rank = {names[i]: r for r, i in enumerate(hidden)}
    blocks = []
    for e in enums:
        blocks.append(N("ENUM %s\n[1, 2, \"x\"]" % e))
    objs = []
    anc = {}
    for i in sorted(range(nt), key=lambda i: rank[names[i]]):
        anc[names[i]] = {names[i]}
    plan = {}
    for i in sorted(range(nt), key=lambda i: rank[names[i]]):
        n = names[i]
        lower = [m for m in names if rank[m] < rank[n]]
        plan[n] = []
        if lower and rng.random() < 0.4:
            k = [rng.choice(lower)]
            if rng.random() < 0.4:
                o = [m for m in lower if not (anc[m] & anc[k[0]])]
                if o:
                    k.append(rng.choice(o))
            plan[n] = k
            for x in k:
                anc[n] |= anc[x]
    cyc_budget = [2]
    for i, n in enumerate(names):
        props, rules = [], []
        if plan[n]:
            k = plan[n]
            if len(k) == 1:
                rules.append('allOf: "%s"' % k[0])
            else:
                rules.append("allOf: [%s]" % ", ".join('"%s"' % x for x in k))
        props.append('"p%d": %d' % (i, i))
        # references: mostly "downwards" in the hidden order (acyclic), some anywhere (cycles through
        # optional properties); few per type: the dependency's example of heavily recursive types
        # grows exponentially (a 100-line document gave a 340 MB catalog)
        lower_r = [m for m in names if rank[m] < rank[n]]
        targets = []
        for _ in range(rng.randint(0, 2)):
            if lower_r and rng.random() < 0.75:
                targets.append(rng.choice(lower_r))
            elif rng.random() < 0.5:
                targets.append(rng.choice(names))
        cyc_budget[0] -= sum(1 for m in targets if rank[m] >= rank[n])
        if cyc_budget[0] < 0:
            targets = [m for m in targets if rank[m] < rank[n]]
        for m in dict.fromkeys(targets):
            form = rng.random()
            pn = "r%d_%s" % (i, m[1:])
            if form < 0.45:
                props.append('"%s": %s // {optional: true}' % (pn, m))
            elif form < 0.6:
                props.append('"%s": [ // {optional: true}\n    %s\n  ]' % (pn, m))
            elif form < 0.8 and len(names) > 1:
                o = rng.choice(lower_r) if lower_r else m
                props.append('"%s": %s | %s // {optional: true}' % (pn, m, o))
            else:
                props.append('"%s": 1 // {or: ["%s", "integer"], optional: true}' % (pn, m))
        if enums and rng.random() < 0.5:
            props.append('"en%d": 1 // {enum: %s}' % (i, rng.choice(enums)))
        head = "{" + (" // {%s}" % ", ".join(rules) if rules else "")
        body = head + "\n" + "\n".join("  " + with_comma(p, k == len(props) - 1) for k, p in enumerate(props)) + "\n}"
        blocks.append(N("TYPE %s\n%s" % (n, body)))
        objs.append(n)
    extra = []
    if exotic:
        if rng.random() < 0.4:
            blocks.append(N("TYPE @rx regex\n/ab[0-9]{2}/"))
            extra.append("@rx")
        if rng.random() < 0.3:
            blocks.append(N("TYPE @anyt any"))     # cannot be referenced from a schema
        if rng.random() < 0.4:
            blocks.append(N("TYPE @alias\n%s" % rng.choice(names)))
            extra.append("@alias")
        if rng.random() < 0.3:
            blocks.append(N('TYPE @str\n"abc" // {minLength: 1}'))
            extra.append("@str")
    return blocks, objs, extra, enums


def body_using(rng, objs, extra, enums, allow_allof=True):
    t = rng.choice(objs)
    r = rng.random()
    if r < 0.2:
        return t
    if r < 0.27:
        return '{ // root note %d\n  "rn": %d\n}' % (rng.randint(0, 9), rng.randint(0, 9))
    if r < 0.35:
        return '{"q": %s}' % t
    if r < 0.5 and allow_allof:
        return '{ // {allOf: "%s"}\n  "own": 1\n}' % t
    if r < 0.6:
        return "[%s]" % t
    if r < 0.7 and len(objs) > 1:
        return "%s | %s" % (t, rng.choice(objs))
    if r < 0.8 and extra:
        return '{"z": %s}' % rng.choice(extra)
    if r < 0.9 and enums:
        return '{\n  "e": 2 // {enum: %s}\n}' % rng.choice(enums)
    return '{"k": "v", "n": null}'


def gen_typed(rng, exotic=True, with_openapi_friendly=False):
    roots = [N("JSIGHT 0.3")]
    if rng.random() < 0.6:
        roots.append(N("INFO", [N('Title "Typed %d"' % rng.randint(0, 99)), N("Version 2.0")]))
    blocks, objs, extra, enums = gen_types(rng, exotic=exotic)
    for i in range(rng.randint(0, 2)):
        blocks.append(N("SERVER @srv%d // s" % i, [N('BaseUrl "https://h%d.example/"' % i)]))
    tags = []
    for i in range(rng.randint(0, 2)):
        tags.append("@tag%d" % i)
        blocks.append(N("TAG @tag%d // tag %d" % (i, i)))
    def tagline():
        if tags and rng.random() < 0.5:
            return [N("Tags " + " ".join(rng.sample(tags, rng.randint(1, len(tags)))))]
        return []
    B = lambda: body_using(rng, objs, extra, enums)
    nint = rng.randint(1, 4)
    for i in range(nint):
        r = rng.random()
        if r < 0.35:
            kids = tagline()
            path = "/u%d" % i
            if rng.random() < 0.5:
                path += "/{id}"
                if rng.random() < 0.6:
                    kids.append(N('Path\n{\n  "id": %s\n}' % ("1" if rng.random() < 0.6 else '"abc"')))
            ms = rng.sample(["GET", "POST", "PUT", "PATCH", "DELETE"], rng.randint(1, 3))
            for m in ms:
                mk = tagline()
                if m != "GET" and rng.random() < 0.6:
                    mk.append(N("Request\n" + B()))
                if rng.random() < 0.3:
                    mk.append(N('Query "a=1"\n{"a": 1}'))
                mk.append(N("200\n" + B()))
                if rng.random() < 0.4:
                    mk.append(N("404 any"))
                if rng.random() < 0.2:
                    mk.append(N("200", [N('Headers\n{"X-H": "v"}'), N("Body\n" + B())]))
                kids.append(N(m, mk))
            blocks.append(N("URL " + path, kids))
        elif r < 0.75:
            m = rng.choice(["GET", "POST", "PUT", "DELETE"])
            mk = tagline()
            if m in ("POST", "PUT"):
                mk.append(N("Request\n" + B()))
            mk.append(N("%d\n%s" % (rng.choice([200, 201, 400]), B())))
            if rng.random() < 0.3:
                mk.append(N("500 empty"))
            pnames = rng.sample(["key", "KEY", "Key", "id", "ID", "k_1", "a-b", "x"], rng.randint(1, 3))
            if rng.random() < 0.4 and not any(k.text.startswith("Path") for k in mk):
                defined = rng.sample(pnames, rng.randint(1, len(pnames)))
                mk.insert(0, N("Path\n{\n" + ",\n".join('  "%s": %d' % (pn, j) for j, pn in enumerate(defined)) + "\n}"))
            blocks.append(N("%s /m%d/%s/x" % (m, i, "/s/".join("{%s}" % pn for pn in pnames)), mk))
        else:
            kids = [N("Protocol json-rpc-2.0")]
            for j in range(rng.randint(1, 2)):
                mk = tagline()
                if rng.random() < 0.8:
                    mk.append(N("Params\n" + B()))
                if rng.random() < 0.8:
                    mk.append(N("Result\n" + B()))
                if rng.random() < 0.5:
                    mk.reverse()    # the children of a Method have no prescribed order
                kids.append(N("Method m%d_%d" % (i, j), mk))
            blocks.append(N("URL /rpc%d" % i, kids))
    rng.shuffle(blocks)
    return roots + blocks


def permutations_of(rng, roots, limit):
    """orders of roots[k:] where k = number of leading JSIGHT blocks; all for <= 5 blocks"""
    import itertools
    head, rest = roots[:1], roots[1:]
    n = len(rest)
    if n <= 1:
        return []
    if n <= 5:
        perms = [p for p in itertools.permutations(range(n)) if list(p) != list(range(n))]
        if len(perms) > limit:
            perms = rng.sample(perms, limit)
        return perms
    out = []
    out.append(tuple(reversed(range(n))))
    for _ in range(limit - 1):
        p = list(range(n))
        rng.shuffle(p)
        if p != list(range(n)):
            out.append(tuple(p))
    return out
