"""Reference automaton for directive nesting (C11), written from the property text and the
JSight API 0.3 context table; independent of the Coq model and of /repo."""

TABLE = {
    "URL": ["GET", "POST", "PUT", "PATCH", "DELETE", "Path", "PASTE", "Protocol", "Method", "Tags"],
    "GET": ["Description", "Request", "RESP", "Path", "Query", "PASTE", "Tags", "OperationId"],
    "HTTPMETHOD": None,
    "RESP": ["Body", "Headers", "PASTE"],
    "Request": ["Body", "Headers", "PASTE"],
    "INFO": ["Title", "Version", "Description", "PASTE"],
    "SERVER": ["BaseUrl", "PASTE"],
    "Method": ["Description", "Params", "Result", "Tags"],
    "TAG": ["Description"],
    "MACRO": ["INFO", "Title", "Version", "Description", "SERVER", "BaseUrl", "URL", "GET", "POST", "PUT",
              "PATCH", "DELETE", "Body", "Request", "RESP", "Path", "Headers", "Query", "TYPE", "ENUM", "PASTE"],
}
for m in ("POST", "PUT", "PATCH", "DELETE"):
    TABLE[m] = TABLE["GET"]
del TABLE["HTTPMETHOD"]
ROOT = ["JSIGHT", "INFO", "SERVER", "URL", "GET", "POST", "PUT", "PATCH", "DELETE", "TYPE", "ENUM", "MACRO", "PASTE", "TAG"]
METHODS = ["GET", "POST", "PUT", "PATCH", "DELETE"]


def kind_of(text):
    w = text.split()[0] if text.split() else ""
    if len(w) == 3 and w.isdigit() and "1" <= w[0] <= "5":
        return "RESP"
    return w


def has_path(text):
    first = text.split("\n")[0].split()
    return len(first) > 1 and first[1].startswith("/") and not first[1].startswith("//") and not first[1].startswith("/*")


def ref_build(tokens):
    """tokens: list of (text, explicit) | ')'.  -> (verdict, token_index, flags, forest)
    verdict: ok | context | noclose | unclosed.  flags: set of situation names met on the way.
    forest: nested [kind, [children]] lists built so far (kinds: keyword names, RESP -> HTTP-response-code)."""
    chain = []  # (kind, explicit, node), innermost last
    flags = set()
    forest = []

    def name(k):
        return "HTTP-response-code" if k == "RESP" else k

    for i, t in enumerate(tokens):
        if t == ")":
            while chain and not chain[-1][1]:
                chain.pop()
            if not chain:
                return ("noclose", i, flags, forest)
            chain.pop()
            continue
        text, explicit = t
        k = kind_of(text)
        node = [name(k), []]
        j = len(chain) - 1
        placed = False
        while j >= 0:
            ck, cx, cn = chain[j]
            if k in TABLE.get(ck, []):
                if k in METHODS and has_path(text) and ck == "URL":
                    if cx:
                        return ("context", i, flags, forest)
                    if any(x for _, x, _ in chain):
                        # a new root would silently close an explicit context: not allowed
                        flags.add("explicit-abandoned-by-method-with-path")
                        return ("context", i, flags, forest)
                    forest.append(node)
                    chain = [(k, explicit, node)]
                else:
                    cn[1].append(node)
                    chain = chain[:j + 1] + [(k, explicit, node)]
                placed = True
                break
            if cx:
                return ("context", i, flags, forest)
            j -= 1
        if not placed:
            if k in ROOT:
                forest.append(node)
                chain = [(k, explicit, node)]
            else:
                return ("context", i, flags, forest)
    if any(x for _, x, _ in chain):
        return ("unclosed", len(tokens), flags, forest)
    return ("ok", len(tokens), flags, forest)


def parse_forest(strings):
    """kind nesting of the harness's canonical directive strings"""
    out = []
    for s in strings:
        stack = []
        i = 0
        while i < len(s):
            c = s[i]
            if c == "(":
                j = s.index(" ", i)
                node = [s[i + 1:j], []]
                if stack:
                    stack[-1][1].append(node)
                else:
                    out.append(node)
                stack.append(node)
                i = j
            elif c == ")":
                stack.pop()
                i += 1
            else:
                i += 1
    return out
